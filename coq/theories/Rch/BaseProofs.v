(** The base receiver delivers exactly what the send attempts mean ([tspec]), for every framing of
    the attempts and every placement of dropped-and-repeated [recv] calls. *)
From Remoc Require Import Lib.Base Gen.Consts Chmux.Parse Chmux.Recv Chmux.RecvProofs Rch.Base.

Ltac bprj := cbn [bm br b_max b_dflt_ports set_mode set_max_ports binit
                  rcving finished restarted max_data max_ports set_rcving set_finished set_restarted rinit] in *.

(** goals that follow from a [common] hypothesis by projection *)
Ltac cm :=
  match goal with
  | H : _ /\ _ /\ _ /\ _ /\ _ /\ _ |- _ => solve [apply H]
  | _ => idtac
  end.

Lemma data_frames_cons first fin c cs :
  data_frames first fin (c :: cs) =
  FData first (fin && match cs with [] => true | _ => false end) c :: data_frames false fin cs.
Proof. destruct cs; cbn [data_frames]; now rewrite ?andb_true_r, ?andb_false_r. Qed.

Lemma port_frames_cons first fin c cs :
  port_frames first fin (c :: cs) =
  FPorts first (fin && match cs with [] => true | _ => false end) c :: port_frames false fin cs.
Proof. destruct cs; cbn [port_frames]; now rewrite ?andb_true_r, ?andb_false_r. Qed.

Section Proofs.
  Variable decode : list N -> dres.
  Variable ports_of : list N -> list N.
  Variables md rmax dflt : N.

  Notation bfeed := (bfeed decode ports_of).
  Notation reenter := (reenter decode).
  Notation bstep := (bstep decode ports_of).
  Notation brun := (brun decode ports_of).
  Notation stream_q := (stream_q decode ports_of).
  Notation decode_done := (decode_done decode ports_of).
  Notation have_item := (have_item ports_of).
  Notation on_data := (on_data decode ports_of).
  Notation on_any := (on_any decode ports_of).
  Notation deliver := (deliver decode).

  (** what never changes on a healthy port *)
  Definition common (s : bstate) : Prop :=
    finished (br s) = false /\ restarted (br s) = None /\ b_dflt_ports s = dflt /\
    dflt <= max_ports (br s) /\ b_max s = rmax /\ max_data (br s) = md.

  Definition nodata (x : receiving) : Prop := match x with RData _ _ => False | _ => True end.

  (** between two sends *)
  Definition Bnd (s : bstate) : Prop :=
    common s /\
    match bm s with
    | BStream _ _ | BDrain _ => rcving (br s) = RChunks [] false
    | _ => True
    end.
  Definition Skip (s : bstate) : Prop := common s /\ bm s = BIdle.
  Definition Expect (s : bstate) (b : list N) : Prop :=
    common s /\ bm s = BPorts b (ports_of b) /\ ports_of b <> [].

  Lemma Skip_Bnd s : Skip s -> Bnd s.
  Proof. intros [H E]. split; auto. now rewrite E. Qed.
  Lemma Expect_Bnd s b : Expect s b -> Bnd s.
  Proof. intros (H & E & _). split; auto. now rewrite E. Qed.

  Lemma common_set s m r :
    common s -> finished r = finished (br s) -> restarted r = restarted (br s) ->
    max_ports r = max_ports (br s) -> max_data r = max_data (br s) -> common (set_mode s m r).
  Proof. unfold common. intros (A & B & C & D & E & F) H1 H2 H3 H4. bprj. rewrite H1, H2, H3, H4. repeat split; auto. Qed.

  Lemma common_set_rcving s m x : common s -> common (set_mode s m (set_rcving (br s) x)).
  Proof. intros H. apply common_set; auto. Qed.

  (** the final state and output of a complete data message [b] *)
  Definition Fin (s : bstate) (b : list N) (o : list bres) : Prop :=
    (rmax < len b /\ o = [RErrSize] /\ Skip s) \/
    (len b <= rmax /\ decode b <> DOk /\ o = [RErrDeser] /\ Skip s) \/
    (len b <= rmax /\ decode b = DOk /\ ports_of b = [] /\ o = [ROk b] /\ Skip s) \/
    (len b <= rmax /\ decode b = DOk /\ ports_of b <> [] /\ o = [] /\ Expect s b).

  Lemma Fin_size s b : rmax < len b -> Skip s -> Fin s b [RErrSize].
  Proof. intros. left. auto. Qed.
  Lemma Fin_deser s b : len b <= rmax -> decode b <> DOk -> Skip s -> Fin s b [RErrDeser].
  Proof. intros. right. left. auto. Qed.
  Lemma Fin_ok s b : len b <= rmax -> decode b = DOk -> ports_of b = [] -> Skip s -> Fin s b [ROk b].
  Proof. intros. right. right. left. auto 6. Qed.
  Lemma Fin_expect s b : len b <= rmax -> decode b = DOk -> ports_of b <> [] -> Expect s b -> Fin s b [].
  Proof. intros. right. right. right. auto 6. Qed.

  Lemma Skip_intro s : common s -> bm s = BIdle -> Skip s.
  Proof. split; auto. Qed.

  (** the mode of a final state, and that it survives a change of the chmux receiver's buffer state *)
  Lemma Fin_set_rcving s b o x :
    Fin s b o -> Fin (set_mode s (bm s) (set_rcving (br s) x)) b o.
  Proof.
    assert (Hsk : forall s, Skip s -> Skip (set_mode s (bm s) (set_rcving (br s) x))).
    { intros s0 [Hc Hm]. split; [now apply common_set_rcving|exact Hm]. }
    intros [(H1 & H2 & H3)|[(H1 & H2 & H3 & H4)|[(H1 & H2 & H3 & H4 & H5)|(H1 & H2 & H3 & H4 & Hc & Hm & H5)]]].
    - subst o. apply Fin_size; auto.
    - subst o. apply Fin_deser; auto.
    - subst o. apply Fin_ok; auto.
    - subst o. apply Fin_expect; auto. split; [now apply common_set_rcving|split; auto].
  Qed.

  Lemma Fin_mode s b o : Fin s b o -> common s /\ (bm s = BIdle \/ bm s = BPorts b (ports_of b)).
  Proof.
    intros [(H1 & H2 & Hc & Hm)|[(H1 & H2 & H3 & Hc & Hm)|[(H1 & H2 & H3 & H4 & Hc & Hm)|(H1 & H2 & H3 & H4 & Hc & Hm & H5)]]]; auto.
  Qed.

  Lemma have_item_fin s r b :
    common (set_mode s BIdle r) -> len b <= rmax -> decode b = DOk ->
    let '(s', o) := have_item s r b in Fin s' b o /\ rcving (br s') = rcving r.
  Proof.
    intros Hc Hl Hd. unfold Base.have_item. destruct (ports_of b) as [|p ps] eqn:Ep.
    - split; [|reflexivity]. apply Fin_ok; auto. now apply Skip_intro.
    - split; [|reflexivity]. apply Fin_expect; auto; [congruence|].
      destruct Hc as (A & B & C & D & E & F). bprj.
      split; [|split; [bprj; now rewrite Ep|congruence]].
      unfold common. bprj. repeat split; auto. rewrite C. lia.
  Qed.

  Lemma decode_done_fin s r b :
    common (set_mode s BIdle r) -> len b <= rmax ->
    let '(s', o) := decode_done s r b in Fin s' b o /\ rcving (br s') = rcving r.
  Proof.
    intros Hc Hl. unfold Base.decode_done. destruct (decode b) eqn:Ed.
    - now apply have_item_fin.
    - split; [|reflexivity]. apply Fin_deser; auto; [congruence|now apply Skip_intro].
    - split; [|reflexivity]. apply Fin_deser; auto; [congruence|now apply Skip_intro].
  Qed.

  Lemma stream_q_ok s r q : forall total acc completed,
    (b_max s <? total + len (concat q)) = false ->
    stream_q s r total acc q completed =
    if completed then decode_done s (set_rcving r RNothing) (acc ++ concat q)
    else (set_mode s (BStream (total + len (concat q)) (acc ++ concat q)) (set_rcving r (RChunks [] false)), []).
  Proof.
    induction q as [|c q IH]; intros total acc completed H; cbn [Base.stream_q concat].
    - rewrite app_nil_r. rewrite len_nil. replace (total + 0) with total by lia. reflexivity.
    - cbn [concat] in H. rewrite len_app in H. apply N.ltb_ge in H.
      destruct (b_max s <? total + len c) eqn:E; [apply N.ltb_lt in E; lia|].
      rewrite IH by (apply N.ltb_ge; lia).
      rewrite len_app, <- !app_assoc. replace (total + len c + len (concat q)) with (total + (len c + len (concat q))) by lia.
      reflexivity.
  Qed.

  Lemma stream_q_abort s r q : forall total acc completed,
    (b_max s <? total + len (concat q)) = true -> (b_max s <? total) = false ->
    exists q', stream_q s r total acc q completed = (set_mode s BIdle (set_rcving r (RChunks q' completed)), [RErrSize]).
  Proof.
    induction q as [|c q IH]; intros total acc completed H H0; cbn [Base.stream_q concat] in *.
    - rewrite len_nil in H. replace (total + 0) with total in H by lia. congruence.
    - rewrite len_app in H. destruct (b_max s <? total + len c) eqn:E.
      + eexists. reflexivity.
      + apply IH; auto. now replace (total + len c + len (concat q)) with (total + (len c + len (concat q))) by lia.
  Qed.

  (** ** how one frame is processed, by receiver state *)

  Definition idle_like (m : bmode) : Prop := m = BIdle \/ exists b' ex, m = BPorts b' ex.

  (** a data frame arriving while the chmux receiver buffers the message ([acc] so far, in [bufs]) *)
  Definition buf_result (s : bstate) (m : bmode) (bufs : list (list N)) (acc : list N) (last : bool) (c : list N)
    : bstate * list bres :=
    if len acc + len c <=? md then
      if last then on_data s (set_rcving (br s) RNothing) (acc ++ c)
      else (set_mode s m (set_rcving (br s) (RData (bufs ++ [c]) (len acc + len c))), [])
    else stream_q s (set_rcving (br s) (RChunks (bufs ++ [c]) last)) 0 [] (bufs ++ [c]) last.

  Lemma buf_feed s bufs acc last c :
    common s -> idle_like (bm s) -> rcving (br s) = RData bufs (len acc) -> concat bufs = acc ->
    bfeed s (FData false last c) = buf_result s (bm s) bufs acc last c.
  Proof.
    intros Hc Hm Hr Hb. pose proof Hc as (Hfin & Hres & Hd & Hmp & Hbm & Hmd).
    unfold Base.bfeed, buf_result. rewrite Hfin.
    assert (Hany : handle_any (br s) (FData false last c) =
                   if len acc + len c <=? md
                   then if last then (set_rcving (br s) RNothing, Some (OData (concat (bufs ++ [c]))))
                        else (set_rcving (br s) (RData (bufs ++ [c]) (len acc + len c)), None)
                   else (set_rcving (br s) (RChunks (bufs ++ [c]) last), Some OChunks)).
    { unfold handle_any. rewrite Hr, Hmd. reflexivity. }
    rewrite concat_snoc, Hb in Hany.
    destruct Hm as [Hm|(b' & ex & Hm)]; rewrite Hm, Hany;
      destruct (len acc + len c <=? md); try destruct last; try reflexivity.
  Qed.

  Lemma handle_any_first r last c :
    max_data r = md ->
    handle_any r (FData true last c) =
    if 0 + len c <=? md
    then if last then (set_rcving r RNothing, Some (OData c))
         else (set_rcving r (RData [c] (0 + len c)), None)
    else (set_rcving r (RChunks [c] last), Some OChunks).
  Proof.
    intros Hr. unfold handle_any. cbn [app concat]. rewrite Hr, app_nil_r. reflexivity.
  Qed.

  (** a stream cancelled by the first frame of the next message: that message is looked at next *)
  Lemma on_cancel_first s last c :
    common s ->
    Base.on_cancel decode ports_of s (set_restarted (set_rcving (br s) RNothing) (Some (c, last))) =
    buf_result s BIdle [] [] last c.
  Proof.
    intros Hc. pose proof Hc as (Hfin & Hres & Hd & Hmp & Hbm & Hmd).
    unfold Base.on_cancel, buf_result. bprj. cbn [app]. change (len (@nil N)) with 0.
    assert (Heq : forall x, set_rcving (set_restarted (set_restarted (set_rcving (br s) RNothing) (Some (c, last))) None) x
                            = set_rcving (br s) x).
    { intros x. unfold set_rcving, set_restarted. bprj. now rewrite Hres. }
    rewrite handle_any_first by (bprj; exact Hmd).
    destruct (0 + len c <=? md); try destruct last; rewrite ?Heq; try reflexivity.
  Qed.

  (** the first frame of a data message resets whatever was in progress *)
  Lemma first_feed s last c :
    Bnd s ->
    bfeed s (FData true last c) =
    buf_result s (match bm s with BPorts b' ex => BPorts b' ex | _ => BIdle end) [] [] last c.
  Proof.
    intros [Hc Hb]. pose proof Hc as (Hfin & Hres & Hd & Hmp & Hbm & Hmd).
    unfold Base.bfeed. rewrite Hfin.
    destruct (bm s) as [|total acc|acc|b' ex] eqn:Em.
    - unfold buf_result. cbn [app]. change (len (@nil N)) with 0. rewrite (handle_any_first _ last c Hmd).
      destruct (0 + len c <=? md); try destruct last; reflexivity.
    - unfold handle_chunk. rewrite Hb. now apply on_cancel_first.
    - unfold handle_chunk. rewrite Hb. now apply on_cancel_first.
    - unfold buf_result. cbn [app]. change (len (@nil N)) with 0. rewrite (handle_any_first _ last c Hmd).
      destruct (0 + len c <=? md); try destruct last; reflexivity.
  Qed.

  Lemma str_feed s total acc last c :
    common s -> bm s = BStream total acc -> rcving (br s) = RChunks [] false ->
    bfeed s (FData false last c) = stream_q s (set_rcving (br s) (RChunks [] last)) total acc [c] last.
  Proof.
    intros Hc Hm Hr. pose proof Hc as (Hfin & _). unfold Base.bfeed. rewrite Hfin, Hm.
    unfold handle_chunk. rewrite Hr. bprj. reflexivity.
  Qed.

  Lemma ign_feed s last c :
    common s -> idle_like (bm s) -> nodata (rcving (br s)) ->
    bfeed s (FData false last c) = (set_mode s (bm s) (set_rcving (br s) RNothing), []).
  Proof.
    intros Hc Hm Hn. pose proof Hc as (Hfin & _). unfold Base.bfeed. rewrite Hfin.
    assert (Hany : handle_any (br s) (FData false last c) = (set_rcving (br s) RNothing, None)).
    { unfold handle_any. destruct (rcving (br s)); try reflexivity. destruct Hn. }
    destruct Hm as [Hm|(b' & ex & Hm)]; rewrite Hm, Hany; reflexivity.
  Qed.

  Lemma drain_feed s acc (last : bool) c :
    common s -> bm s = BDrain acc -> rcving (br s) = RChunks [] false ->
    bfeed s (FData false last c) =
    if last then decode_done s (set_rcving (set_rcving (br s) (RChunks [] true)) RNothing) acc
    else (set_mode s (BDrain acc) (set_rcving (br s) (RChunks [] false)), []).
  Proof.
    intros Hc Hm Hr. pose proof Hc as (Hfin & _). unfold Base.bfeed. rewrite Hfin, Hm.
    unfold handle_chunk. rewrite Hr. bprj. destruct last; reflexivity.
  Qed.

  (** the deserializer's verdict on a message streamed to its end *)
  Lemma stream_last s x acc q :
    common s -> len acc <= rmax ->
    let '(s', o) := stream_q s (set_rcving (br s) x) (len acc) acc q true in
    Fin s' (acc ++ concat q) o.
  Proof.
    intros Hc Hl. pose proof Hc as (Hfin & Hres & Hd & Hmp & Hbm & Hmd).
    destruct (b_max s <? len acc + len (concat q)) eqn:Eb.
    - destruct (stream_q_abort s (set_rcving (br s) x) q (len acc) acc true Eb) as (q' & ->).
      { rewrite Hbm. apply N.ltb_ge. lia. }
      rewrite Hbm in Eb. apply N.ltb_lt in Eb. apply Fin_size; [rewrite len_app; lia|].
      apply Skip_intro; [apply common_set; auto|reflexivity].
    - rewrite stream_q_ok by exact Eb. rewrite Hbm in Eb. apply N.ltb_ge in Eb.
      pose proof (decode_done_fin s (set_rcving (set_rcving (br s) x) RNothing) (acc ++ concat q)) as H.
      destruct (decode_done s (set_rcving (set_rcving (br s) x) RNothing) (acc ++ concat q)) as [s' o].
      apply H; [apply common_set; auto|rewrite len_app; lia].
  Qed.

  (** ** one data message, frame by frame *)
  Section Message.
    Variable b : list N.   (** the whole message (complete or cut) *)
    Hypothesis Hpre : forall q r, q ++ r = b -> r <> [] -> decode q = DIncomplete.

    Definition MBuf (s : bstate) (acc : list N) : Prop :=
      common s /\ idle_like (bm s) /\ (exists bufs, rcving (br s) = RData bufs (len acc) /\ concat bufs = acc) /\ len acc <= md.
    Definition MStr (s : bstate) (acc : list N) : Prop :=
      common s /\ bm s = BStream (len acc) acc /\ rcving (br s) = RChunks [] false /\ md < len acc /\ len acc <= rmax.
    Definition MAbort (s : bstate) (acc : list N) : Prop :=
      Skip s /\ nodata (rcving (br s)) /\ md < len acc /\ rmax < len acc.
    (** the deserializer has ended before the end of the message: the feed loop skips to the end *)
    Definition MDrain (s : bstate) (acc : list N) : Prop :=
      acc = b /\ common s /\ bm s = BDrain b /\ rcving (br s) = RChunks [] false /\ md < len b /\ len b <= rmax.

    (** state while the message is being received: [acc] arrived so far, [o] emitted so far *)
    Definition Mid (s : bstate) (acc : list N) (o : list bres) : Prop :=
      (MBuf s acc /\ o = []) \/ (MStr s acc /\ o = []) \/ (MAbort s acc /\ o = [RErrSize]) \/ (MDrain s acc /\ o = []).

    (** the streamed part of a message that goes on *)
    Lemma stream_more s x total acc q :
      common s -> total = len acc -> len acc <= rmax -> md < len acc + len (concat q) ->
      let '(s', o) := stream_q s (set_rcving (br s) x) total acc q false in
      Mid s' (acc ++ concat q) o.
    Proof.
      intros Hc -> Hl Hmd'. pose proof Hc as (Hfin & Hres & Hd & Hmp & Hbm & Hmd).
      destruct (b_max s <? len acc + len (concat q)) eqn:Eb.
      - destruct (stream_q_abort s (set_rcving (br s) x) q (len acc) acc false Eb) as (q' & ->).
        { rewrite Hbm. apply N.ltb_ge. lia. }
        rewrite Hbm in Eb. apply N.ltb_lt in Eb. right. right. left. split; [|reflexivity].
        split; [apply Skip_intro; [apply common_set; auto|reflexivity]|].
        split; [bprj; exact I|]. rewrite len_app. lia.
      - rewrite stream_q_ok by exact Eb. rewrite Hbm in Eb. apply N.ltb_ge in Eb.
        right. left. split; [|reflexivity]. rewrite <- len_app.
        split; [apply common_set; auto|]. split; [reflexivity|]. split; [reflexivity|]. rewrite len_app. lia.
    Qed.

    Lemma buf_result_mid s m bufs acc c :
      common s -> idle_like m -> concat bufs = acc -> len acc <= md ->
      let '(s', o) := buf_result s m bufs acc false c in Mid s' (acc ++ c) o.
    Proof.
      intros Hc Hm Hb Hl. unfold buf_result. destruct (len acc + len c <=? md) eqn:Efit.
      - apply N.leb_le in Efit. left. split; [|reflexivity].
        split; [now apply common_set_rcving|]. split; [exact Hm|]. split; [|rewrite len_app; lia].
        exists (bufs ++ [c]). bprj. rewrite len_app, concat_snoc, Hb. auto.
      - apply N.leb_gt in Efit.
        pose proof (stream_more s (RChunks (bufs ++ [c]) false) 0 [] (bufs ++ [c]) Hc eq_refl) as H.
        rewrite concat_snoc, Hb in H. cbn [app] in H. apply H.
        + change (len (@nil N)) with 0. lia.
        + change (len (@nil N)) with 0. rewrite len_app. lia.
    Qed.

    Lemma buf_result_last s m bufs acc c :
      common s -> concat bufs = acc -> len acc <= md ->
      let '(s', o) := buf_result s m bufs acc true c in Fin s' (acc ++ c) o.
    Proof.
      intros Hc Hb Hl. pose proof Hc as (Hfin & Hres & Hd & Hmp & Hbm & Hmd).
      unfold buf_result. destruct (len acc + len c <=? md) eqn:Efit.
      - unfold Base.on_data. rewrite Hbm. destruct (rmax <? len (acc ++ c)) eqn:Eb.
        + apply N.ltb_lt in Eb. apply Fin_size; auto. apply Skip_intro; [now apply common_set_rcving|reflexivity].
        + apply N.ltb_ge in Eb.
          pose proof (decode_done_fin s (set_rcving (br s) RNothing) (acc ++ c)) as H.
          destruct (decode_done s (set_rcving (br s) RNothing) (acc ++ c)) as [s' o].
          apply H; [now apply common_set_rcving|exact Eb].
      - pose proof (stream_last s (RChunks (bufs ++ [c]) true) [] (bufs ++ [c]) Hc) as H.
        rewrite concat_snoc, Hb in H. cbn [app] in H. change (len (@nil N)) with 0 in H. apply H. lia.
    Qed.

    Lemma reenter_mid s acc o rest :
      Mid s acc o -> acc ++ rest = b ->
      let '(s', o') := reenter s in Mid s' acc (o ++ o').
    Proof.
      intros H Hb. unfold Base.reenter.
      destruct H as [[(Hc & Hm & Hr & Hl) ->]|[[(Hc & Hm & Hr & Hl1 & Hl2) ->]|[[([Hc Hm] & Hn & Hl1 & Hl2) ->]|[(-> & Hc & Hm & Hr & Hl1 & Hl2) ->]]]].
      - assert (Hm' := Hm). destruct Hm as [Hm|(b' & ex & Hm)]; rewrite Hm; left; (split; [|reflexivity]);
          exact (conj Hc (conj Hm' (conj Hr Hl))).
      - rewrite Hm.
        assert (Hdone : decode acc <> DIncomplete ->
                        Mid (set_mode s (BDrain acc) (br s)) acc ([] ++ [])).
        { intros Hd. assert (rest = []) as ->.
          { destruct rest as [|n rest]; auto. exfalso. apply Hd. apply (Hpre acc (n :: rest)); auto. discriminate. }
          rewrite app_nil_r in Hb. subst acc. right. right. right. split; [|reflexivity].
          split; [reflexivity|]. split; [apply common_set; auto|]. repeat split; auto. }
        destruct (decode acc) eqn:Ed; try (apply Hdone; congruence).
        right. left. split; [|reflexivity]. exact (conj Hc (conj Hm (conj Hr (conj Hl1 Hl2)))).
      - rewrite Hm. right. right. left. split; [|reflexivity]. exact (conj (conj Hc Hm) (conj Hn (conj Hl1 Hl2))).
      - rewrite Hm. right. right. right. split; [|reflexivity].
        exact (conj eq_refl (conj Hc (conj Hm (conj Hr (conj Hl1 Hl2))))).
    Qed.

    (** a frame that is not the last of the message *)
    Lemma frame_mid s acc o c rest :
      Mid s acc o -> acc ++ c ++ rest = b ->
      let '(s', o') := bfeed s (FData false false c) in Mid s' (acc ++ c) (o ++ o').
    Proof.
      intros H Hb.
      destruct H as [[(Hc & Hm & (bufs & Hr & Hbufs) & Hl) ->]|[[(Hc & Hm & Hr & Hl1 & Hl2) ->]|[[([Hc Hm] & Hn & Hl1 & Hl2) ->]|[(-> & Hc & Hm & Hr & Hl1 & Hl2) ->]]]].
      - rewrite (buf_feed s bufs acc false c Hc Hm Hr Hbufs). cbn [app]. now apply buf_result_mid.
      - rewrite (str_feed s (len acc) acc false c Hc Hm Hr). cbn [app].
        pose proof (stream_more s (RChunks [] false) (len acc) acc [c] Hc eq_refl Hl2) as H.
        cbn [concat] in H. rewrite app_nil_r in H. apply H. lia.
      - assert (Hil : idle_like (bm s)) by (rewrite Hm; unfold idle_like; auto).
        rewrite (ign_feed s false c Hc Hil Hn).
        rewrite Hm. right. right. left. split; [|reflexivity].
        split; [apply Skip_intro; [now apply common_set_rcving|reflexivity]|].
        split; [bprj; exact I|]. rewrite len_app. lia.
      - (* the deserializer has ended: the chunks are dropped *)
        assert (Hce : c ++ rest = []).
        { apply (app_inv_head b). now rewrite app_nil_r. }
        apply app_eq_nil in Hce. destruct Hce as [-> ->]. rewrite !app_nil_r.
        rewrite (drain_feed s b false [] Hc Hm Hr). right. right. right. split; [|reflexivity].
        split; [reflexivity|]. split; [now apply common_set_rcving|]. repeat split; auto.
    Qed.

    (** the last frame of a complete message *)
    Lemma frame_last s acc o c :
      Mid s acc o -> acc ++ c = b ->
      let '(s', o') := bfeed s (FData false true c) in Fin s' b (o ++ o').
    Proof.
      intros H Hb.
      destruct H as [[(Hc & Hm & (bufs & Hr & Hbufs) & Hl) ->]|[[(Hc & Hm & Hr & Hl1 & Hl2) ->]|[[([Hc Hm] & Hn & Hl1 & Hl2) ->]|[(-> & Hc & Hm & Hr & Hl1 & Hl2) ->]]]].
      - rewrite (buf_feed s bufs acc true c Hc Hm Hr Hbufs). cbn [app]. rewrite <- Hb. now apply buf_result_last.
      - rewrite (str_feed s (len acc) acc true c Hc Hm Hr). cbn [app].
        pose proof (stream_last s (RChunks [] true) acc [c] Hc Hl2) as H.
        cbn [concat] in H. rewrite app_nil_r, Hb in H. exact H.
      - assert (Hil : idle_like (bm s)) by (rewrite Hm; unfold idle_like; auto).
        rewrite (ign_feed s true c Hc Hil Hn).
        rewrite Hm. cbn [app]. apply Fin_size; [rewrite <- Hb, len_app; lia|].
        apply Skip_intro; [now apply common_set_rcving|reflexivity].
      - rewrite (drain_feed s b true c Hc Hm Hr). cbn [app].
        pose proof (decode_done_fin s (set_rcving (set_rcving (br s) (RChunks [] true)) RNothing) b) as H.
        destruct (decode_done s (set_rcving (set_rcving (br s) (RChunks [] true)) RNothing) b) as [s' o'].
        apply H; [apply common_set; auto|exact Hl2].
    Qed.

    Lemma reenter_idle s : idle_like (bm s) -> reenter s = (s, []).
    Proof. intros [Hm|(b' & ex & Hm)]; unfold Base.reenter; now rewrite Hm. Qed.

    Lemma reenter_bnd s : Bnd s -> exists s', reenter s = (s', []) /\ Bnd s'.
    Proof.
      intros [Hc Hb]. unfold Base.reenter. destruct (bm s) as [|total acc|acc|b' ex] eqn:Em;
        try (exists s; split; [reflexivity|split; [exact Hc|now rewrite Em]]).
      destruct (decode acc); try (exists s; split; [reflexivity|split; [exact Hc|now rewrite Em]]);
        (eexists; split; [reflexivity|split; [apply common_set; auto|exact Hb]]).
    Qed.

    Lemma brun_app s a1 a2 :
      brun s (a1 ++ a2) = let '(s1, o1) := brun s a1 in let '(s2, o2) := brun s1 a2 in (s2, o1 ++ o2).
    Proof.
      revert s; induction a1 as [|a a1 IH]; intros s; cbn [app Base.brun].
      - destruct (brun s a2); reflexivity.
      - destruct (bstep s a) as [s1 o1]. rewrite IH. destruct (brun s1 a1) as [s2 o2]. destruct (brun s2 a2) as [s3 o3].
        now rewrite app_assoc.
    Qed.

    Lemma frames_of_app a1 a2 : frames_of (a1 ++ a2) = frames_of a1 ++ frames_of a2.
    Proof. unfold frames_of. apply flat_map_app. Qed.

    Lemma frames_of_cons_inv acts f fs :
      frames_of acts = f :: fs ->
      exists pre post, acts = pre ++ RFrame f :: post /\ frames_of pre = [] /\ frames_of post = fs.
    Proof.
      induction acts as [|a acts IH]; cbn [frames_of flat_map]; [discriminate|].
      destruct a as [g|]; cbn [app].
      - intros H. injection H as -> <-. exists [], acts. auto.
      - intros H. destruct (IH H) as (pre & post & -> & Hp & Hq). exists (RReenter :: pre), post. auto.
    Qed.

    (** only repeated [recv] calls, in a state where they find nothing *)
    Lemma brun_reenters (P : bstate -> Prop) :
      (forall s, P s -> reenter s = (s, [])) ->
      forall acts s, frames_of acts = [] -> P s -> brun s acts = (s, []).
    Proof.
      intros HP. induction acts as [|a acts IH]; intros s Hf Hs; cbn [Base.brun]; auto.
      destruct a as [g|]; [discriminate|]. cbn [Base.bstep]. rewrite (HP s Hs). rewrite (IH s Hf Hs). reflexivity.
    Qed.

    Lemma brun_reenters_gen (P : bstate -> Prop) :
      (forall s, P s -> exists s', reenter s = (s', []) /\ P s') ->
      forall acts s, frames_of acts = [] -> P s -> exists s', brun s acts = (s', []) /\ P s'.
    Proof.
      intros HP. induction acts as [|a acts IH]; intros s Hf Hs; cbn [Base.brun]; [eauto|].
      destruct a as [g|]; [discriminate|]. cbn [Base.bstep]. destruct (HP s Hs) as (s1 & -> & Hs1).
      destruct (IH s1 Hf Hs1) as (s2 & -> & Hs2). eauto.
    Qed.

    Lemma Fin_idle s o : Fin s b o -> idle_like (bm s).
    Proof. intros H. destruct (Fin_mode _ _ _ H) as [_ [Hm|Hm]]; rewrite Hm; unfold idle_like; eauto. Qed.

    (** the rest of a message that stays unfinished *)
    Lemma run_cut : forall acts cs s acc o,
      Mid s acc o -> acc ++ concat cs = b -> frames_of acts = data_frames false false cs ->
      let '(s', o') := brun s acts in Mid s' b (o ++ o').
    Proof.
      induction acts as [|a acts IH]; intros cs s acc o Hmid Hb Hf; cbn [Base.brun].
      - cbn in Hf. destruct cs as [|c cs]; [|rewrite data_frames_cons in Hf; discriminate].
        cbn [concat] in Hb. rewrite app_nil_r in *. now subst acc.
      - destruct a as [f|]; cbn [Base.bstep].
        + cbn [frames_of flat_map app] in Hf. change (flat_map _ acts) with (frames_of acts) in Hf.
          destruct cs as [|c cs]; [discriminate|]. rewrite data_frames_cons in Hf. cbn [andb] in Hf.
          injection Hf as -> Hf. cbn [concat] in Hb.
          pose proof (frame_mid s acc o c (concat cs) Hmid Hb) as H1.
          destruct (bfeed s (FData false false c)) as [s1 o1].
          specialize (IH cs s1 (acc ++ c) (o ++ o1) H1). rewrite <- app_assoc in IH. specialize (IH Hb Hf).
          destruct (brun s1 acts) as [s2 o2]. now rewrite <- app_assoc in IH.
        + cbn [frames_of flat_map app] in Hf. change (flat_map _ acts) with (frames_of acts) in Hf.
          pose proof (reenter_mid s acc o (concat cs) Hmid Hb) as H1.
          destruct (reenter s) as [s1 o1].
          specialize (IH cs s1 acc (o ++ o1) H1 Hb Hf).
          destruct (brun s1 acts) as [s2 o2]. now rewrite <- app_assoc in IH.
    Qed.

    (** the rest of a message that is completed *)
    Lemma run_ok : forall acts cs s acc o,
      Mid s acc o -> cs <> [] -> acc ++ concat cs = b -> frames_of acts = data_frames false true cs ->
      let '(s', o') := brun s acts in Fin s' b (o ++ o').
    Proof.
      induction acts as [|a acts IH]; intros cs s acc o Hmid Hne Hb Hf; cbn [Base.brun].
      - cbn in Hf. destruct cs as [|c cs]; [congruence|rewrite data_frames_cons in Hf; discriminate].
      - destruct a as [f|]; cbn [Base.bstep].
        + cbn [frames_of flat_map app] in Hf. change (flat_map _ acts) with (frames_of acts) in Hf.
          destruct cs as [|c cs]; [congruence|]. rewrite data_frames_cons in Hf. cbn [andb] in Hf.
          injection Hf as -> Hf. cbn [concat] in Hb.
          destruct cs as [|c2 cs].
          * (* the last frame *)
            cbn [concat] in Hb. rewrite app_nil_r in Hb.
            pose proof (frame_last s acc o c Hmid Hb) as H1.
            destruct (bfeed s (FData false true c)) as [s1 o1].
            rewrite (brun_reenters (fun s => idle_like (bm s)) reenter_idle acts s1 Hf (Fin_idle _ _ H1)).
            now rewrite app_nil_r.
          * pose proof (frame_mid s acc o c (concat (c2 :: cs)) Hmid Hb) as H1.
            destruct (bfeed s (FData false false c)) as [s1 o1].
            specialize (IH (c2 :: cs) s1 (acc ++ c) (o ++ o1) H1 ltac:(discriminate)).
            rewrite <- app_assoc in IH. specialize (IH Hb Hf).
            destruct (brun s1 acts) as [s2 o2]. now rewrite <- app_assoc in IH.
        + cbn [frames_of flat_map app] in Hf. change (flat_map _ acts) with (frames_of acts) in Hf.
          pose proof (reenter_mid s acc o (concat cs) Hmid Hb) as H1.
          destruct (reenter s) as [s1 o1].
          specialize (IH cs s1 acc (o ++ o1) H1 Hne Hb Hf).
          destruct (brun s1 acts) as [s2 o2]. now rewrite <- app_assoc in IH.
    Qed.

    (** a complete data message, from any state between sends *)
    Lemma msg_ok s acts cs :
      Bnd s -> cs <> [] -> concat cs = b -> frames_of acts = data_frames true true cs ->
      let '(s', o) := brun s acts in Fin s' b o.
    Proof.
      intros Hbnd Hne Hb Hf. destruct cs as [|c cs]; [congruence|]. rewrite data_frames_cons in Hf. cbn [andb] in Hf.
      destruct (frames_of_cons_inv _ _ _ Hf) as (pre & post & -> & Hpre0 & Hpost).
      rewrite brun_app. destruct (brun_reenters_gen Bnd reenter_bnd pre s Hpre0 Hbnd) as (sp & Hrun & Hbndp). rewrite Hrun.
      clear Hrun Hbnd. revert sp Hbndp. clear s. intros s Hbnd. cbn [Base.brun Base.bstep].
      rewrite (first_feed s _ c Hbnd). destruct Hbnd as [Hc Hb'].
      assert (Hil : idle_like (match bm s with BPorts b' ex => BPorts b' ex | _ => BIdle end)).
      { destruct (bm s); unfold idle_like; eauto. }
      cbn [concat] in Hb. destruct cs as [|c2 cs].
      - cbn [concat] in Hb. rewrite app_nil_r in Hb. subst c.
        pose proof (buf_result_last s (match bm s with BPorts b' ex => BPorts b' ex | _ => BIdle end) [] [] b Hc eq_refl) as H1.
        change (len (@nil N)) with 0 in H1. cbn [app] in H1. specialize (H1 ltac:(lia)).
        destruct (buf_result s _ [] [] true b) as [s1 o1].
        rewrite (brun_reenters (fun s => idle_like (bm s)) reenter_idle post s1 Hpost (Fin_idle _ _ H1)).
        cbn [app]. now rewrite app_nil_r.
      - pose proof (buf_result_mid s _ [] [] c Hc Hil eq_refl) as H1.
        change (len (@nil N)) with 0 in H1. specialize (H1 ltac:(lia)). cbn [app] in H1.
        destruct (buf_result s _ [] [] false c) as [s1 o1].
        pose proof (run_ok post (c2 :: cs) s1 c o1 H1 ltac:(discriminate) Hb Hpost) as H2.
        destruct (brun s1 post) as [s2 o2]. cbn [app]. exact H2.
    Qed.

    (** an unfinished data message *)
    Lemma mid_cut_end s o :
      Mid s b o ->
      Bnd s /\ o = if (md <? len b) && (rmax <? len b) then [RErrSize] else [].
    Proof.
      intros [[(Hc & Hm & Hr & Hl) ->]|[[(Hc & Hm & Hr & Hl1 & Hl2) ->]|[[(Hs & Hn & Hl1 & Hl2) ->]|[(_ & Hc & Hm & Hr & Hl1 & Hl2) ->]]]].
      - split.
        + split; auto. destruct Hm as [Hm|(b' & ex & Hm)]; now rewrite Hm.
        + apply N.ltb_ge in Hl. now rewrite Hl.
      - split.
        + split; auto. rewrite Hm. auto.
        + apply N.ltb_ge in Hl2. now rewrite Hl2, andb_false_r.
      - split; [now apply Skip_Bnd|]. apply N.ltb_lt in Hl1, Hl2. now rewrite Hl1, Hl2.
      - split.
        + split; auto. rewrite Hm. auto.
        + apply N.ltb_ge in Hl2. now rewrite Hl2, andb_false_r.
    Qed.

    Lemma msg_cut s acts cs :
      Bnd s -> concat cs = b -> frames_of acts = data_frames true false cs ->
      let '(s', o) := brun s acts in
      Bnd s' /\ o = if (md <? len b) && (rmax <? len b) then [RErrSize] else [].
    Proof.
      intros Hbnd Hb Hf. destruct cs as [|c cs].
      - cbn in Hf. destruct (brun_reenters_gen Bnd reenter_bnd acts s Hf Hbnd) as (sp & -> & Hbndp). split; auto.
        cbn [concat] in Hb. subst b. change (len (@nil N)) with 0.
        assert (H : (md <? 0) = false) by (apply N.ltb_ge; lia). now rewrite H.
      - rewrite data_frames_cons in Hf. cbn [andb] in Hf.
        destruct (frames_of_cons_inv _ _ _ Hf) as (pre & post & -> & Hpre0 & Hpost).
        rewrite brun_app. destruct (brun_reenters_gen Bnd reenter_bnd pre s Hpre0 Hbnd) as (sp & Hrun & Hbndp). rewrite Hrun.
        clear Hrun Hbnd. revert sp Hbndp. clear s. intros s Hbnd. cbn [Base.brun Base.bstep].
        rewrite (first_feed s _ c Hbnd). destruct Hbnd as [Hc Hb'].
        assert (Hil : idle_like (match bm s with BPorts b' ex => BPorts b' ex | _ => BIdle end)).
        { destruct (bm s); unfold idle_like; eauto. }
        cbn [concat] in Hb.
        pose proof (buf_result_mid s _ [] [] c Hc Hil eq_refl) as H1.
        change (len (@nil N)) with 0 in H1. specialize (H1 ltac:(lia)). cbn [app] in H1.
        destruct (buf_result s _ [] [] false c) as [s1 o1].
        pose proof (run_cut post cs s1 c o1 H1 Hb Hpost) as H2.
        destruct (brun s1 post) as [s2 o2]. cbn [app]. now apply mid_cut_end.
    Qed.
  End Message.

  (** ** the port batch of a value *)
  Definition PMid (s : bstate) (acc : list N) : Prop :=
    common s /\ idle_like (bm s) /\ rcving (br s) = RReq acc.

  Definition pres (s : bstate) (acc : list N) (last : bool) (c : list N) : bstate * list bres :=
    let r' := set_rcving (br s) RNothing in
    if last then
      match bm s with
      | BPorts b ex =>
          match remove_ports ex (acc ++ c) with
          | [] => (set_mode s BIdle r', [ROk b])
          | ex' => (set_mode s (BPorts b ex') (set_max_ports r' (len ex' + b_dflt_ports s)), [RErrMissing])
          end
      | _ => (set_mode s BIdle r', [])
      end
    else (set_mode s (bm s) (set_rcving (br s) (RReq (acc ++ c))), []).

  Lemma pfeed s (first : bool) acc (last : bool) c :
    common s -> idle_like (bm s) -> (if first then RReq [] else rcving (br s)) = RReq acc ->
    len (acc ++ c) <= dflt ->
    bfeed s (FPorts first last c) = pres s acc last c.
  Proof.
    intros Hc Hm Hrc Hl. pose proof Hc as (Hfin & Hres & Hd & Hmp & Hbm & Hmd).
    unfold Base.bfeed, pres. rewrite Hfin.
    assert (Hany : handle_any (br s) (FPorts first last c) =
                   if last then (set_rcving (br s) RNothing, Some (OReq (acc ++ c)))
                   else (set_rcving (br s) (RReq (acc ++ c)), None)).
    { unfold handle_any.
      rewrite Hrc. assert (Hlt : (max_ports (br s) <? len (acc ++ c)) = false) by (apply N.ltb_ge; lia).
      rewrite Hlt. reflexivity. }
    destruct Hm as [Hm|(b' & ex & Hm)]; rewrite Hm, Hany; destruct last; try reflexivity.
  Qed.

  Lemma remove_ports_self ex : remove_ports ex ex = [].
  Proof.
    unfold remove_ports. assert (H : forall l : list N, (forall e, In e l -> In e ex) ->
      filter (fun e => negb (existsb (N.eqb e) ex)) l = []).
    { induction l as [|x l IH]; intros Hin; cbn [filter]; auto.
      assert (Hx : existsb (N.eqb x) ex = true).
      { apply existsb_exists. exists x. split; [apply Hin; now left|apply N.eqb_refl]. }
      rewrite Hx. cbn [negb]. apply IH. intros e He. apply Hin. now right. }
    apply H. auto.
  Qed.

  (** the rest of a port batch *)
  Lemma prun : forall acts cs s acc (fin : bool),
    PMid s acc -> len (acc ++ concat cs) <= dflt -> (fin = true -> cs <> []) ->
    frames_of acts = port_frames false fin cs ->
    let '(s', o) := brun s acts in
    if fin then
      match bm s with
      | BPorts b ex =>
          match remove_ports ex (acc ++ concat cs) with
          | [] => Skip s' /\ o = [ROk b]
          | _ => True
          end
      | _ => Skip s' /\ o = []
      end
    else PMid s' (acc ++ concat cs) /\ bm s' = bm s /\ o = [].
  Proof.
    induction acts as [|a acts IH]; intros cs s acc fin Hp Hl Hne Hf; cbn [Base.brun].
    - cbn in Hf. destruct cs as [|c cs]; [|rewrite port_frames_cons in Hf; discriminate].
      destruct fin; [specialize (Hne eq_refl); congruence|]. cbn [concat]. rewrite app_nil_r. auto.
    - destruct Hp as (Hc & Hm & Hr). destruct a as [f|]; cbn [Base.bstep].
      + cbn [frames_of flat_map app] in Hf. change (flat_map _ acts) with (frames_of acts) in Hf.
        destruct cs as [|c cs]; [cbn in Hf; discriminate|]. rewrite port_frames_cons in Hf.
        injection Hf as -> Hf. cbn [concat] in Hl. rewrite app_assoc in Hl.
        assert (Hl1 : len (acc ++ c) <= dflt) by (rewrite len_app in Hl; lia).
        rewrite (pfeed s false acc _ c Hc Hm Hr Hl1). unfold pres.
        destruct cs as [|c2 cs].
        * (* last frame of the batch *)
          destruct fin; cbn [andb].
          -- cbn [concat]. rewrite app_nil_r.
             assert (Hsk : Skip (set_mode s BIdle (set_rcving (br s) RNothing))).
             { apply Skip_intro; [now apply common_set_rcving|reflexivity]. }
             destruct Hm as [Hm|(b' & ex & Hm)]; rewrite Hm.
             ++ rewrite (brun_reenters (fun s => idle_like (bm s)) reenter_idle acts _ Hf) by (left; reflexivity).
                auto.
             ++ destruct (remove_ports ex (acc ++ c)) eqn:Er; [|destruct (brun _ acts); exact I].
                rewrite (brun_reenters (fun s => idle_like (bm s)) reenter_idle acts _ Hf) by (left; reflexivity).
                auto.
          -- assert (Hp' : PMid (set_mode s (bm s) (set_rcving (br s) (RReq (acc ++ c)))) (acc ++ c)).
             { split; [now apply common_set_rcving|]. split; [exact Hm|reflexivity]. }
             rewrite (brun_reenters (fun s => idle_like (bm s)) reenter_idle acts _ Hf) by exact Hm.
             cbn [concat]. rewrite app_nil_r. auto.
        * rewrite andb_false_r.
          assert (Hp' : PMid (set_mode s (bm s) (set_rcving (br s) (RReq (acc ++ c)))) (acc ++ c)).
          { split; [now apply common_set_rcving|]. split; [exact Hm|reflexivity]. }
          specialize (IH (c2 :: cs) _ (acc ++ c) fin Hp' Hl ltac:(discriminate) Hf).
          destruct (brun _ acts) as [s2 o2]. bprj. cbn [app].
          change (concat (c :: c2 :: cs)) with (c ++ concat (c2 :: cs)). rewrite app_assoc. exact IH.
      + cbn [frames_of flat_map app] in Hf. change (flat_map _ acts) with (frames_of acts) in Hf.
        rewrite (reenter_idle s Hm).
        specialize (IH cs s acc fin (conj Hc (conj Hm Hr)) Hl Hne Hf).
        destruct (brun s acts) as [s2 o2]. exact IH.
  Qed.

  (** a whole port batch *)
  Lemma pmsg s acts cs (fin : bool) :
    common s -> idle_like (bm s) -> len (concat cs) <= dflt -> (fin = true -> cs <> []) ->
    frames_of acts = port_frames true fin cs ->
    let '(s', o) := brun s acts in
    if fin then
      match bm s with
      | BPorts b ex =>
          match remove_ports ex (concat cs) with
          | [] => Skip s' /\ o = [ROk b]
          | _ => True
          end
      | _ => Skip s' /\ o = []
      end
    else common s' /\ idle_like (bm s') /\ o = [].
  Proof.
    intros Hc Hm Hl Hne Hf. destruct cs as [|c cs].
    - destruct fin; [specialize (Hne eq_refl); congruence|]. cbn in Hf.
      rewrite (brun_reenters (fun s => idle_like (bm s)) reenter_idle acts s Hf Hm). auto.
    - rewrite port_frames_cons in Hf.
      destruct (frames_of_cons_inv _ _ _ Hf) as (pre & post & -> & Hpre0 & Hpost).
      rewrite brun_app. rewrite (brun_reenters (fun s => idle_like (bm s)) reenter_idle pre s Hpre0 Hm).
      cbn [Base.brun Base.bstep]. cbn [concat] in Hl.
      assert (Hl1 : len ([] ++ c) <= dflt) by (cbn [app]; rewrite len_app in Hl; lia).
      rewrite (pfeed s true [] _ c Hc Hm eq_refl Hl1). unfold pres. cbn [app].
      destruct cs as [|c2 cs].
      + destruct fin; cbn [andb].
        * cbn [concat]. rewrite app_nil_r.
          assert (Hsk : Skip (set_mode s BIdle (set_rcving (br s) RNothing))).
          { apply Skip_intro; [now apply common_set_rcving|reflexivity]. }
          destruct Hm as [Hm|(b' & ex & Hm)]; rewrite Hm.
          -- rewrite (brun_reenters (fun s => idle_like (bm s)) reenter_idle post _ Hpost) by (left; reflexivity). auto.
          -- destruct (remove_ports ex c) eqn:Er; [|destruct (brun _ post); exact I].
             rewrite (brun_reenters (fun s => idle_like (bm s)) reenter_idle post _ Hpost) by (left; reflexivity). auto.
        * rewrite (brun_reenters (fun s => idle_like (bm s)) reenter_idle post _ Hpost) by exact Hm.
          split; [now apply common_set_rcving|]. split; [exact Hm|reflexivity].
      + rewrite andb_false_r.
        assert (Hp' : PMid (set_mode s (bm s) (set_rcving (br s) (RReq c))) c).
        { split; [now apply common_set_rcving|]. split; [exact Hm|reflexivity]. }
        pose proof (prun post (c2 :: cs) _ c fin Hp' Hl ltac:(discriminate) Hpost) as H.
        destruct (brun _ post) as [s2 o2]. bprj. cbn [app].
        change (concat (c :: c2 :: cs)) with (c ++ concat (c2 :: cs)).
        destruct fin; [exact H|]. destruct H as ((Hc2 & Hm2 & _) & _ & ->). auto.
  Qed.

  (** ** one send, then all of them *)

  (** an honest sender using a self-delimiting codec: no proper prefix of an encoding is an encoding *)
  Definition twf (t : itrace) : Prop :=
    match t with
    | TNothing => True
    | TCut p => forall q r, q ++ r = p -> r <> [] -> decode q = DIncomplete
    | TDone b => (forall q r, q ++ r = b -> r <> [] -> decode q = DIncomplete) /\ len (ports_of b) <= dflt
    | TPortsCut b ps =>
        (forall q r, q ++ r = b -> r <> [] -> decode q = DIncomplete) /\ ports_of b <> [] /\ len ps <= dflt
    end.

  Lemma frames_of_split : forall acts f1 f2,
    frames_of acts = f1 ++ f2 -> exists a1 a2, acts = a1 ++ a2 /\ frames_of a1 = f1 /\ frames_of a2 = f2.
  Proof.
    intros acts f1; revert acts. induction f1 as [|f f1 IH]; intros acts f2 H.
    - exists [], acts. auto.
    - cbn [app] in H. destruct (frames_of_cons_inv _ _ _ H) as (pre & post & -> & Hp & Hq).
      destruct (IH post f2 Hq) as (a1 & a2 & -> & H1 & H2).
      exists (pre ++ RFrame f :: a1), a2. rewrite <- app_assoc. cbn [app]. split; auto. split; auto.
      rewrite frames_of_app, Hp. cbn [app frames_of flat_map]. change (flat_map _ a1) with (frames_of a1). now rewrite H1.
  Qed.

  Lemma Framed_app_inv l1 : forall l2 fs,
    Framed (l1 ++ l2) fs -> exists f1 f2, fs = f1 ++ f2 /\ Framed l1 f1 /\ Framed l2 f2.
  Proof.
    induction l1 as [|a l1 IH]; intros l2 fs H; cbn [app] in H.
    - exists [], fs. repeat split; auto. constructor.
    - inversion H as [|a' r fa fr Ha Hr]; subst. destruct (IH _ _ Hr) as (f1 & f2 & -> & H1 & H2).
      exists (fa ++ f1), f2. rewrite app_assoc. repeat split; auto. now constructor.
  Qed.

  Lemma Fin_out s b o :
    Fin s b o -> ports_of b = [] -> Bnd s /\ o = tspec decode md rmax (TDone b).
  Proof.
    unfold tspec, Base.deliver.
    intros [(H1 & -> & Hs)|[(H1 & H2 & -> & Hs)|[(H1 & H2 & H3 & -> & Hs)|(H1 & H2 & H3 & -> & Hs)]]] Hp.
    - apply N.ltb_lt in H1. rewrite H1. split; [now apply Skip_Bnd|reflexivity].
    - apply N.ltb_ge in H1. rewrite H1. split; [now apply Skip_Bnd|]. destruct (decode b); congruence.
    - apply N.ltb_ge in H1. rewrite H1, H2. split; [now apply Skip_Bnd|reflexivity].
    - congruence.
  Qed.

  Lemma trace_run t s acts :
    twf t -> Bnd s -> Framed (trace_atts ports_of t) (frames_of acts) ->
    let '(s', o) := brun s acts in Bnd s' /\ o = tspec decode md rmax t.
  Proof.
    intros Hwf Hbnd Hfr. destruct t as [|p|b|b ps]; cbn [trace_atts] in Hfr.
    - inversion Hfr as [Hnil|]. destruct (brun_reenters_gen Bnd reenter_bnd acts s (eq_sym H) Hbnd) as (sp & -> & Hbndp). auto.
    - inversion Hfr as [|a r fa fr Ha Hr Heq]; subst. cbn [framed1] in Ha. destruct Ha as (cs & Hcs & ->).
      inversion Hr; subst. rewrite app_nil_r in *.
      cbn [twf] in Hwf.
      apply (msg_cut (concat cs) Hwf s acts cs Hbnd eq_refl (eq_sym H0)).
    - destruct Hwf as [Hpre Hlp]. destruct (ports_of b) as [|p0 ps0] eqn:Ep.
      + inversion Hfr as [|a r fa fr Ha Hr Heq]; subst. cbn [framed1] in Ha. destruct Ha as (cs & Hne & Hcs & ->).
        inversion Hr; subst. rewrite app_nil_r in *.
        pose proof (msg_ok (concat cs) Hpre s acts cs Hbnd Hne eq_refl (eq_sym H0)) as H.
        destruct (brun s acts) as [s' o]. now apply Fin_out.
      + inversion Hfr as [|a r fa fr Ha Hr Heq]; subst. cbn [framed1] in Ha. destruct Ha as (cs & Hne & Hcs & ->).
        inversion Hr as [|a' r' fp fr' Ha' Hr' Heq']; subst. cbn [framed1] in Ha'. destruct Ha' as (cp & Hnep & Hcp & ->).
        inversion Hr'; subst. rewrite app_nil_r in *.
        destruct (frames_of_split _ _ _ (eq_sym H0)) as (a1 & a2 & -> & Hf1 & Hf2).
        rewrite brun_app.
        pose proof (msg_ok (concat cs) Hpre s a1 cs Hbnd Hne eq_refl Hf1) as H.
        destruct (brun s a1) as [s1 o1].
        assert (Hlc : len (concat cp) <= dflt) by (rewrite Hcp; exact Hlp).
        unfold tspec, Base.deliver.
        destruct H as [(H1 & -> & Hs)|[(H1 & H2 & -> & Hs)|[(H1 & H2 & H3 & -> & Hs)|(H1 & H2 & H3 & -> & Hs)]]].
        * destruct Hs as [Hc1 Hm1].
          pose proof (pmsg s1 a2 cp true Hc1 ltac:(rewrite Hm1; left; reflexivity) Hlc (fun _ => Hnep) Hf2) as H.
          destruct (brun s1 a2) as [s2 o2]. rewrite Hm1 in H. destruct H as [Hs2 ->].
          apply N.ltb_lt in H1. rewrite H1. split; [now apply Skip_Bnd|reflexivity].
        * destruct Hs as [Hc1 Hm1].
          pose proof (pmsg s1 a2 cp true Hc1 ltac:(rewrite Hm1; left; reflexivity) Hlc (fun _ => Hnep) Hf2) as H.
          destruct (brun s1 a2) as [s2 o2]. rewrite Hm1 in H. destruct H as [Hs2 ->].
          apply N.ltb_ge in H1. rewrite H1. split; [now apply Skip_Bnd|]. cbn [app]; destruct (decode (concat cs)); congruence.
        * congruence.
        * destruct Hs as (Hc1 & Hm1 & _).
          pose proof (pmsg s1 a2 cp true Hc1 ltac:(rewrite Hm1; right; eauto) Hlc (fun _ => Hnep) Hf2) as H.
          destruct (brun s1 a2) as [s2 o2]. rewrite Hm1, Hcp, Ep in H. rewrite remove_ports_self in H. destruct H as [Hs2 ->].
          apply N.ltb_ge in H1. rewrite H1, H2. split; [now apply Skip_Bnd|reflexivity].
    - destruct Hwf as (Hpre & Hpn & Hlp).
      inversion Hfr as [|a r fa fr Ha Hr Heq]; subst. cbn [framed1] in Ha. destruct Ha as (cs & Hne & Hcs & ->).
      inversion Hr as [|a' r' fp fr' Ha' Hr' Heq']; subst. cbn [framed1] in Ha'. destruct Ha' as (cp & Hcp & ->).
      inversion Hr'; subst. rewrite app_nil_r in *.
      destruct (frames_of_split _ _ _ (eq_sym H0)) as (a1 & a2 & -> & Hf1 & Hf2).
      rewrite brun_app.
      pose proof (msg_ok (concat cs) Hpre s a1 cs Hbnd Hne eq_refl Hf1) as H.
      destruct (brun s a1) as [s1 o1].
      assert (Hpm : forall s1, common s1 -> idle_like (bm s1) ->
                    let '(s2, o2) := brun s1 a2 in Bnd s2 /\ o2 = []).
      { intros s0 Hc0 Hm0.
        pose proof (pmsg s0 a2 cp false Hc0 Hm0 Hlp ltac:(discriminate) Hf2) as Hq.
        destruct (brun s0 a2) as [s2 o2]. destruct Hq as (Hc2 & Hm2 & ->). split; auto.
        split; auto. destruct Hm2 as [Hm2|(b' & ex & Hm2)]; now rewrite Hm2. }
      unfold tspec.
      destruct H as [(H1 & -> & Hs)|[(H1 & H2 & -> & Hs)|[(H1 & H2 & H3 & -> & Hs)|(H1 & H2 & H3 & -> & Hs)]]].
      + destruct Hs as [Hc1 Hm1]. specialize (Hpm s1 Hc1 ltac:(rewrite Hm1; left; reflexivity)).
        destruct (brun s1 a2) as [s2 o2]. destruct Hpm as [Hb2 ->]. apply N.ltb_lt in H1. rewrite H1. auto.
      + destruct Hs as [Hc1 Hm1]. specialize (Hpm s1 Hc1 ltac:(rewrite Hm1; left; reflexivity)).
        destruct (brun s1 a2) as [s2 o2]. destruct Hpm as [Hb2 ->]. apply N.ltb_ge in H1. rewrite H1.
        split; auto. cbn [app]; destruct (decode (concat cs)); congruence.
      + congruence.
      + destruct Hs as (Hc1 & Hm1 & _). specialize (Hpm s1 Hc1 ltac:(rewrite Hm1; right; eauto)).
        destruct (brun s1 a2) as [s2 o2]. destruct Hpm as [Hb2 ->]. apply N.ltb_ge in H1. rewrite H1, H2. auto.
  Qed.

  Lemma binit_Bnd : Bnd (binit md dflt rmax).
  Proof. split; [|exact I]. unfold common, binit. bprj. repeat split; auto. lia. Qed.

  (** The receiver's results are, send by send, what each send means -- for every framing and every
      placement of repeated [recv] calls. *)
  Theorem base_recv_spec : forall traces s acts,
    Forall twf traces -> Bnd s ->
    Framed (flat_map (trace_atts ports_of) traces) (frames_of acts) ->
    let '(s', o) := brun s acts in Bnd s' /\ o = flat_map (tspec decode md rmax) traces.
  Proof.
    induction traces as [|t traces IH]; intros s acts Hwf Hbnd Hfr; cbn [flat_map] in *.
    - inversion Hfr as [Hnil|]. destruct (brun_reenters_gen Bnd reenter_bnd acts s (eq_sym H) Hbnd) as (sp & -> & Hbndp). auto.
    - inversion Hwf as [|t' l' Ht Hts]; subst.
      destruct (Framed_app_inv _ _ _ Hfr) as (f1 & f2 & Hfs & H1 & H2).
      destruct (frames_of_split _ _ _ Hfs) as (a1 & a2 & -> & Hf1 & Hf2).
      rewrite brun_app. rewrite <- Hf1 in H1. rewrite <- Hf2 in H2.
      pose proof (trace_run t s a1 Ht Hbnd H1) as Ha.
      destruct (brun s a1) as [s1 o1]. destruct Ha as [Hb1 ->].
      specialize (IH s1 a2 Hts Hb1 H2). destruct (brun s1 a2) as [s2 o2]. destruct IH as [Hb2 ->]. auto.
  Qed.

  (** ** from [Sender::send] to traces *)

  (** an honest sender with a self-delimiting codec: no proper prefix of an encoding is an encoding;
      the ports collected while serializing are those the deserializer will expect *)
  Definition honest (it : item) : Prop :=
    (forall q r, q ++ r = ibytes it -> r <> [] -> decode q = DIncomplete) /\
    iports it = ports_of (ibytes it) /\ len (iports it) <= dflt.

  Lemma send_ports_shape bu ps :
    let '(_, atts, r) := send_ports bu ps in
    (ps = [] /\ atts = [] /\ r = SOk) \/
    (ps <> [] /\ atts = [APortsOk ps] /\ r = SOk) \/
    (ps <> [] /\ exists k, atts = [APortsCut (firstn k ps)] /\ r = SCancelled).
  Proof.
    unfold send_ports. destruct ps as [|p ps]; [auto|].
    destruct (has bu (4 * len (p :: ps))).
    - right. left. repeat split; auto. discriminate.
    - right. right. split; [discriminate|]. eexists. split; reflexivity.
  Qed.

  Lemma base_send_shape c bd bu it :
    let '(_, _, atts, res) := base_send c bd bu it in
    (atts = [] /\ res <> SOk) \/
    (exists k, atts = [ADataCut (firstn k (ibytes it))] /\ res <> SOk) \/
    (exists st bu', atts = ADataOk st (ibytes it) :: snd (fst (send_ports bu' (iports it))) /\
                    res = snd (send_ports bu' (iports it))).
  Proof.
    unfold base_send.
    destruct ((bd <=? 0)%Z); [destruct (serialize_buffered (s_md c) it)|].
    - (* buffered *)
      destruct (s_max c <? len (ibytes it)); [left; split; [reflexivity|discriminate]|].
      destruct (has bu (N.max 1 (len (ibytes it)))).
      + destruct (send_ports (spend bu (N.max 1 (len (ibytes it)))) (iports it)) as [[bu2 ps] r] eqn:E.
        right. right. exists false, (spend bu (N.max 1 (len (ibytes it)))). rewrite E. auto.
      + right. left. eexists. split; [reflexivity|discriminate].
    - (* overflow: streamed *)
      destruct (negb (has bu _)); [right; left; eexists; split; [reflexivity|discriminate]|].
      destruct (s_max c <? ser_written it); [right; left; eexists; split; [reflexivity|discriminate]|].
      destruct (ser_fails it); [right; left; eexists; split; [reflexivity|discriminate]|].
      destruct (negb (has _ 1)); [right; left; eexists; split; [reflexivity|discriminate]|].
      destruct (send_ports _ (iports it)) as [[bu2 ps] r] eqn:E.
      right. right. eexists true, _. rewrite E. auto.
    - left. split; [reflexivity|discriminate].
    - (* streamed because of the heuristic *)
      destruct (negb (has bu _)); [right; left; eexists; split; [reflexivity|discriminate]|].
      destruct (s_max c <? ser_written it); [right; left; eexists; split; [reflexivity|discriminate]|].
      destruct (ser_fails it); [right; left; eexists; split; [reflexivity|discriminate]|].
      destruct (negb (has _ 1)); [right; left; eexists; split; [reflexivity|discriminate]|].
      destruct (send_ports _ (iports it)) as [[bu2 ps] r] eqn:E.
      right. right. eexists true, _. rewrite E. auto.
  Qed.

  Lemma Framed_flag st b r fs : Framed (ADataOk st b :: r) fs -> Framed (ADataOk false b :: r) fs.
  Proof. intros H. inversion H; subst. constructor; auto. Qed.

  Lemma base_send_trace c bd bu it :
    honest it ->
    let '(_, _, atts, res) := base_send c bd bu it in
    twf (atts_trace atts) /\
    (forall fs, Framed atts fs -> Framed (trace_atts ports_of (atts_trace atts)) fs) /\
    (res = SOk -> atts_trace atts = TDone (ibytes it)) /\
    (res <> SOk -> match atts_trace atts with TDone _ => False | _ => True end).
  Proof.
    intros (Hpre & Hports & Hlp). pose proof (base_send_shape c bd bu it) as Hs.
    destruct (base_send c bd bu it) as [[[bd' bu'] atts] res].
    destruct Hs as [[-> Hr]|[(k & -> & Hr)|(st & bu2 & -> & ->)]].
    - cbn [atts_trace twf trace_atts]. repeat split; auto; congruence.
    - cbn [atts_trace twf trace_atts]. split; [|repeat split; auto; congruence].
      intros q r Hq Hr0. destruct r as [|x r]; [congruence|].
      apply (Hpre q ((x :: r) ++ skipn k (ibytes it))); [|discriminate].
      rewrite app_assoc, Hq. apply firstn_skipn.
    - pose proof (send_ports_shape bu2 (iports it)) as Hp.
      destruct (send_ports bu2 (iports it)) as [[bu3 ps] r]. cbn [fst snd] in *.
      destruct Hp as [(Hnil & -> & ->)|[(Hne & -> & ->)|(Hne & k & -> & ->)]].
      + cbn [atts_trace twf trace_atts]. rewrite <- Hports, Hnil.
        rewrite Hnil in Hlp.
        repeat split; auto; try congruence; try (intros fs; apply Framed_flag).
      + cbn [atts_trace twf trace_atts]. rewrite <- Hports.
        destruct (iports it) as [|p0 ps0] eqn:Ei; [congruence|].
        repeat split; auto; try congruence; try (intros fs; apply Framed_flag).
      + assert (H : len (firstn k (iports it)) <= len (iports it)).
        { unfold len. rewrite firstn_length. lia. }
        cbn [atts_trace twf trace_atts].
        rewrite Hports in Hne.
        repeat split; auto; try congruence; try (intros fs; apply Framed_flag); try lia.
  Qed.

  (** ** a sequence of sends, end to end *)

  Definition s_atts (x : item * list catt * sres) : list catt := snd (fst x).
  Definition s_item (x : item * list catt * sres) : item := fst (fst x).
  Definition s_res (x : item * list catt * sres) : sres := snd x.

  (** what the receiver reports for one send *)
  Definition sent_spec (x : item * list catt * sres) : list bres :=
    tspec decode md rmax (atts_trace (s_atts x)).

  (** the values whose send returned [Ok] *)
  Definition sent_ok (l : list (item * list catt * sres)) : list (list N) :=
    flat_map (fun x => match s_res x with SOk => [ibytes (s_item x)] | _ => [] end) l.

  Lemma Framed_app l1 : forall f1 l2 f2, Framed l1 f1 -> Framed l2 f2 -> Framed (l1 ++ l2) (f1 ++ f2).
  Proof.
    induction l1 as [|a l1 IH]; intros f1 l2 f2 H1 H2.
    - inversion H1; subst. exact H2.
    - inversion H1; subst. cbn [app]. rewrite <- app_assoc. constructor; auto.
  Qed.

  Lemma Framed_flat_map {A} (f g : A -> list catt) (l : list A) :
    Forall (fun x => forall fs, Framed (f x) fs -> Framed (g x) fs) l ->
    forall fs, Framed (flat_map f l) fs -> Framed (flat_map g l) fs.
  Proof.
    induction 1 as [|x l Hx Hl IH]; intros fs H; cbn [flat_map] in *; auto.
    destruct (Framed_app_inv _ _ _ H) as (f1 & f2 & -> & H1 & H2). apply Framed_app; auto.
  Qed.

  Lemma flat_map_map {A B C} (f : B -> list C) (g : A -> B) (l : list A) :
    flat_map f (map g l) = flat_map (fun x => f (g x)) l.
  Proof. induction l as [|x l IH]; cbn [map flat_map]; congruence. Qed.

  (** every element of [send_all] comes from a [Sender::send] on an honest item *)
  Lemma send_all_forall (P : item * list catt * sres -> Prop) c :
    (forall bd bu it, honest it ->
       let '(_, _, atts, res) := base_send c bd bu it in P (it, atts, res)) ->
    forall its bd, Forall honest (map fst its) -> Forall P (send_all c bd its).
  Proof.
    intros HP. induction its as [|[it bu] its IH]; intros bd Hh; cbn [send_all]; [constructor|].
    inversion Hh as [|? ? Hit Hits]; subst. specialize (HP bd bu it Hit).
    destruct (base_send c bd bu it) as [[[bd' bu'] atts] res]. constructor; auto.
  Qed.

  Theorem base_end_to_end c its bd acts :
    Forall honest (map fst its) ->
    Framed (flat_map s_atts (send_all c bd its)) (frames_of acts) ->
    snd (brun (binit md dflt rmax) acts) = flat_map sent_spec (send_all c bd its).
  Proof.
    intros Hh Hfr.
    assert (Hall : Forall (fun x => twf (atts_trace (s_atts x)) /\
                   (forall fs, Framed (s_atts x) fs -> Framed (trace_atts ports_of (atts_trace (s_atts x))) fs))
                   (send_all c bd its)).
    { apply send_all_forall; auto. intros bd0 bu it Hit. pose proof (base_send_trace c bd0 bu it Hit) as Ht.
      destruct (base_send c bd0 bu it) as [[[? ?] atts] res]. destruct Ht as (A & B & _). auto. }
    pose proof (base_recv_spec (map (fun x => atts_trace (s_atts x)) (send_all c bd its)) (binit md dflt rmax) acts) as Hspec.
    rewrite !flat_map_map in Hspec.
    assert (H1 : Forall twf (map (fun x => atts_trace (s_atts x)) (send_all c bd its))).
    { rewrite Forall_map. eapply Forall_impl; [|exact Hall]. intros x [A _]. exact A. }
    assert (H2 : Framed (flat_map (fun x => trace_atts ports_of (atts_trace (s_atts x))) (send_all c bd its)) (frames_of acts)).
    { apply (Framed_flat_map s_atts); auto. eapply Forall_impl; [|exact Hall]. intros x [_ B]. exact B. }
    specialize (Hspec H1 binit_Bnd H2). destruct (brun (binit md dflt rmax) acts) as [s' o]. cbn [snd]. apply Hspec.
  Qed.

  (** what one send can contribute *)
  Lemma sent_spec_cases c bd bu it :
    honest it ->
    let '(_, _, atts, res) := base_send c bd bu it in
    let o := sent_spec (it, atts, res) in
    (res = SOk -> o = if rmax <? len (ibytes it) then [RErrSize] else deliver (ibytes it)) /\
    (res <> SOk -> o = [] \/ o = [RErrSize] \/ o = [RErrDeser]).
  Proof.
    intros Hit. pose proof (base_send_trace c bd bu it Hit) as Ht.
    destruct (base_send c bd bu it) as [[[bd' bu'] atts] res].
    destruct Ht as (_ & _ & Hok & Hfail). unfold sent_spec, s_atts. cbn [fst snd]. split.
    - intros Hr. rewrite (Hok Hr). reflexivity.
    - intros Hr. specialize (Hfail Hr). destruct (atts_trace atts) as [|p|b|b ps]; cbn [tspec]; auto.
      + destruct ((md <? len p) && (rmax <? len p)); auto.
      + destruct Hfail.
      + destruct (rmax <? len b); auto. destruct (decode b); auto.
  Qed.

  Lemma oks_app a b : oks (a ++ b) = oks a ++ oks b.
  Proof. unfold oks. apply flat_map_app. Qed.

  (** the successful results are exactly the successfully sent values the receiver can accept *)
  Theorem base_success c its bd :
    Forall honest (map fst its) ->
    oks (flat_map sent_spec (send_all c bd its)) =
    filter (acceptable decode rmax) (sent_ok (send_all c bd its)).
  Proof.
    intros Hh.
    pose proof (send_all_forall
      (fun x => oks (sent_spec x) = filter (acceptable decode rmax)
                                      (match s_res x with SOk => [ibytes (s_item x)] | _ => [] end)) c) as H.
    specialize (H ltac:(intros bd0 bu it Hit; pose proof (sent_spec_cases c bd0 bu it Hit) as Ht;
                        destruct (base_send c bd0 bu it) as [[[? ?] atts] res]; destruct Ht as [A B];
                        unfold s_res, s_item; cbn [fst snd];
                        destruct res;
                        [rewrite (A eq_refl); unfold acceptable, Base.deliver; cbn [filter];
                         destruct (rmax <? len (ibytes it)) eqn:E;
                         [apply N.ltb_lt in E; assert (E2 : (len (ibytes it) <=? rmax) = false) by (apply N.leb_gt; lia);
                          rewrite E2; reflexivity
                         |apply N.ltb_ge in E; assert (E2 : (len (ibytes it) <=? rmax) = true) by (apply N.leb_le; lia);
                          rewrite E2; destruct (decode (ibytes it)); reflexivity]
                        |destruct (B ltac:(discriminate)) as [->|[->| ->]]; reflexivity..]) its bd Hh).
    revert H. generalize (send_all c bd its) as l.
    induction l as [|x l IH]; intros H; [reflexivity|].
    inversion H as [|? ? Hx Hl]; subst.
    cbn [flat_map sent_ok]. rewrite oks_app, filter_app. f_equal; [exact Hx|now apply IH].
  Qed.

  (** every result is attributable to one send: a send contributes at most one result -- its value if it
      returned [Ok] and the receiver can accept it, otherwise nothing or one non-final error *)
  Definition attributed (x : item * list catt * sres) : Prop :=
    let b := ibytes (s_item x) in
    let o := sent_spec x in
    (s_res x = SOk /\ acceptable decode rmax b = true /\ o = [ROk b]) \/
    o = [] \/
    ((o = [RErrSize] \/ o = [RErrDeser]) /\ (s_res x <> SOk \/ acceptable decode rmax b = false)).

  Theorem base_attribution c its bd :
    Forall honest (map fst its) ->
    Forall attributed (send_all c bd its).
  Proof.
    intros Hh.
    apply send_all_forall; auto.
    refine (ltac:(intros bd0 bu it Hit; pose proof (sent_spec_cases c bd0 bu it Hit) as Ht;
                        destruct (base_send c bd0 bu it) as [[[? ?] atts] res]; destruct Ht as [A B];
                        unfold attributed, s_res, s_item; cbn [fst snd];
                        destruct res;
                        [rewrite (A eq_refl); unfold acceptable, Base.deliver;
                         destruct (rmax <? len (ibytes it)) eqn:E;
                         [apply N.ltb_lt in E; assert (E2 : (len (ibytes it) <=? rmax) = false) by (apply N.leb_gt; lia);
                          rewrite E2; right; right; auto
                         |apply N.ltb_ge in E; assert (E2 : (len (ibytes it) <=? rmax) = true) by (apply N.leb_le; lia);
                          rewrite E2; destruct (decode (ibytes it)); [left; auto|right; right; auto..]]
                        |destruct (B ltac:(discriminate)) as [->|[->| ->]];
                         [right; left; reflexivity|right; right; split; [auto|left; discriminate]..]..])).
  Qed.

  (** whatever part of the schedule has happened, its results are a prefix of the final ones: values are
      lost only as a suffix when the channel or connection ends *)
  Lemma brun_prefix s a1 a2 : prefix (snd (brun s a1)) (snd (brun s (a1 ++ a2))).
  Proof.
    rewrite brun_app. destruct (brun s a1) as [s1 o1]. destruct (brun s1 a2) as [s2 o2]. cbn [snd]. now exists o2.
  Qed.

  Lemma oks_prefix a b : prefix a b -> prefix (oks a) (oks b).
  Proof. intros [r ->]. rewrite oks_app. eexists. reflexivity. Qed.
End Proofs.
