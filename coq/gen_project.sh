#!/bin/sh
# regenerate _CoqProject file list and Makefile (full .vo build only)
cd "$(dirname "$0")"
{ echo "-Q theories Remoc"; echo "-arg -w -arg -notation-overridden"; find theories -name '*.v' | sort; } > _CoqProject.tmp
if ! cmp -s _CoqProject.tmp _CoqProject.full 2>/dev/null; then
  mv _CoqProject.tmp _CoqProject.full
  coq_makefile -f _CoqProject.full -o Makefile >/dev/null
else rm -f _CoqProject.tmp; fi
